"""C13 -- all four call paths to a C function agree.

Case: one generated module (0-3 structs, 8-20 functions with deterministic
bodies: checksum of all arguments, writes through 'w' pointers, conditional
errno store; see vlib/callgen.py) and a list of call tuples.  The same C source
is built as an API-mode extension (emit_c_code + gcc); that shared object also
exports f0..fN, so it doubles as the library for the two dlopen() paths.
Every call tuple is executed through
    api        lib.f(...)                      generated _cffi_f_ wrapper
    addressof  ffi.addressof(lib, 'f')(...)    libffi on the _cffi_d_ function
    inline     FFI().cdef(); dlopen(so).f      in-line ABI, libffi
    outofline  emit_python_code() module ffi, dlopen(so).f
with argument objects built separately for every FFI, and the outcomes are
compared: result (NaN-aware, structs field-wise, pointers relative to the
argument they point into) or exception type, contents of every cdata array
argument after the call, ffi.errno after the call (preset to the same value).
"""
import os, itertools, collections
from hypothesis import strategies as st, assume
from vlib.core import HarnessError, jdump
from vlib import cc, callgen

ID = 'C13'
LEVEL = 'exploration'
RULE = ('Hypothesis-generated modules of 8-20 C functions (params/results over 23 integer types incl. '
        '_Bool, char/wchar_t/char16_t/char32_t, float, double, pointers to those/void/structs with '
        'read or read-write bodies over 1..170 elements, structs by value (nested, array and pointer '
        'fields), function pointers, variadic tails of cdata) x call tuples (G-INT / G-FLOAT values, '
        'out-of-range, wrong Python type, list/tuple/bytes/str/cdata-array/NULL for pointers, '
        'list/dict/cdata struct initialisers, wrong arity); 4-way differential api / addressof / '
        'in-line dlopen / out-of-line dlopen on result-or-exception-type, array contents and errno. '
        'An evaluation is one call tuple compared over the four paths; non-trivial = signature has '
        '>=3 parameters of >=2 kinds, or a struct, or varargs; distinct by (prototype, argument '
        'value kinds, arity label).')
TECHNIQUE = 'property-based differential testing over four call paths with generated C modules'
LEVEL_TEXT = ('random search: generated signatures x generated argument tuples; every call compared '
              'over the four paths; no exhaustiveness claim')
LEVEL_NOTE = ('trusted: gcc -O0 compiles the generated C source; the dlopen() paths load the API '
              'extension module itself (it exports f0..fN), so all four paths reach the same machine code; '
              'libffi 3.4.4 as installed; checksum bodies (64-bit mix) make unequal argument delivery '
              'visible except for hash collisions')
ASSUMPTIONS = ['the generated C bodies are deterministic functions of their arguments (no static state)',
               'argument tuples never make the C body read outside the passed arrays (lengths >= n)',
               'float cdata are not passed in a variadic tail (C default promotions are the caller\'s duty)']
BUDGET = {'quick': 32, 'thorough': 3200}
CALLS = {'quick': 128, 'thorough': 128}
MIN_PER_SHARD = 2
CRASHY = True          # a wrongly passed pointer/struct may crash the worker: report the case
TIME = {'quick': 20, 'thorough': 840}

_counter = itertools.count()


def strategy(ctx):
    ncalls = CALLS[ctx.tier]
    callgen.allow_big_examples()

    @st.composite
    def case(draw):
        # every shard starts with Hypothesis' all-minimal example (16 shards -> 16 copies of the
        # same trivial module, one gcc run each): reject it before anything is built
        assume(draw(st.integers(0, 255)) != 0)
        mod = draw(callgen.modules(many_args=True))
        n = draw(st.integers(ncalls // 2, ncalls))
        calls = [draw(callgen.call_tuples(mod)) for _ in range(n)]
        # ... and with max_examples >= 10 Hypothesis spends its first max_examples/10 valid
        # examples per shard on 'random short prefix + all-minimal rest' (functions without
        # parameters): make that extension invalid so that it gives the mode up after 5 tries
        assume(draw(st.integers(0, 255)) != 0)
        return {'mod': mod, 'calls': calls}
    return case()


def _kind(t):
    return {'i': 'int', 'c': 'char', 'f': 'float', 's': 'struct', 'p': 'ptr', 'fp': 'fnptr', 'v': 'void'}[t[0]]


def partial_struct_arg(mod, f, args):
    """the call passes a list/tuple/dict initialiser that leaves fields unset
    directly for a struct-by-value parameter"""
    for t, v in zip(f['args'], args):
        if t[0] == 's' and v[0] in ('list', 'tuple', 'dict') and callgen.init_is_partial(mod, t[1], v):
            return True
    return False


_built = collections.OrderedDict()      # json(mod) -> (paths, cleanup): the last few modules of this process


def get_paths(mod, ctx):
    """Hypothesis follows most examples by a handful of mutated copies that differ in one
    call tuple only: keep the last builds so that those do not cost a gcc run each."""
    key = jdump(mod)
    if key in _built:
        _built.move_to_end(key)
        ctx.event('module-build-reused')
        return _built[key][0]
    paths, cleanup = build_paths(mod, ctx)
    _built[key] = (paths, cleanup)
    while len(_built) > 3:
        _, (_, old_cleanup) = _built.popitem(last=False)
        old_cleanup()
    return paths


def teardown(ctx):
    while _built:
        _, (_, cleanup) = _built.popitem()
        cleanup()


def build_paths(mod, ctx):
    """-> (paths, cleanup)   paths: list of (label, ffi, lib, getter)"""
    import cffi
    uid = '%d_%d' % (os.getpid(), next(_counter))
    cdef = callgen.cdef_text(mod)
    src = callgen.c_source(mod)
    ffi_a = cffi.FFI()
    ffi_a.cdef(cdef)
    name = 'c13api_' + uid
    ffi_a.set_source(name, src)
    try:
        m = cc.build_api_module(ffi_a, name, ctx.tmp)
    except cc.CompileFailed as e:
        raise HarnessError('API module does not compile: %s\n%s' % (e, src[:4000]))
    ffi1, lib1 = m.ffi, m.lib
    # the extension module exports f0..fN itself: dlopen() it instead of spending a
    # second gcc run on a plain .so (process creation is the scarce resource)
    so = m.__file__
    ffi3 = cffi.FFI()
    ffi3.cdef(cdef)
    lib3 = ffi3.dlopen(so)
    ffi_b = cffi.FFI()
    ffi_b.cdef(cdef)
    name4 = 'c13abi_' + uid
    ffi_b.set_source(name4, None)
    py = os.path.join(ctx.tmp, name4 + '.py')
    ffi_b.emit_python_code(py)
    ns = {}
    with open(py) as fp:
        exec(compile(fp.read(), py, 'exec'), ns)
    os.unlink(py)
    ffi4 = ns['ffi']
    lib4 = ffi4.dlopen(so)
    paths = [('api', ffi1, lib1, lambda n: getattr(lib1, n)),
             ('addressof', ffi1, lib1, lambda n: ffi1.addressof(lib1, n)),
             ('inline', ffi3, lib3, lambda n: getattr(lib3, n)),
             ('outofline', ffi4, lib4, lambda n: getattr(lib4, n))]

    def cleanup():
        for f, l in ((ffi3, lib3), (ffi4, lib4)):
            try:
                f.dlclose(l)
            except Exception:
                pass
    return paths, cleanup


def run_call(path, mod, call):
    label, ffi, lib, getter = path
    fidx, argvals, e0 = call[0], call[1], call[2]
    out = callgen.Built()
    try:
        args = [callgen.build_value(ffi, lib, v, out) for v in argvals]
    except Exception as e:
        raise HarnessError('cannot build argument objects (%s path): %s: %s; %r' % (
            label, type(e).__name__, e, argvals))
    ptrmap = []
    for a in args:
        if isinstance(a, ffi.CData) and ffi.typeof(a).kind == 'array':
            ptrmap.append((int(ffi.cast('uintptr_t', a)), ffi.sizeof(a)))
        else:
            ptrmap.append((None, 0))
    before = [callgen.norm(ffi, a) for a, _, _ in out.arrays]
    fn = getter('f%d' % fidx)
    ffi.errno = e0
    try:
        r = fn(*args)
    except Exception as e:
        outcome = ['exc', type(e).__name__]
        msg = str(e)[:200]
    else:
        outcome = ['ok', callgen.norm(ffi, r, ptrmap)]
        msg = None
    err = ffi.errno
    after = [callgen.norm(ffi, a) for a, _, _ in out.arrays]
    return {'outcome': outcome, 'errno': err, 'mem': after, 'changed': after != before, 'msg': msg}


def prop(case, ctx):
    mod, calls = case['mod'], case['calls']
    paths = get_paths(mod, ctx)
    if 1:
        for call in calls:
            fidx, argvals, e0, label = call
            f = mod['funcs'][fidx]
            if partial_struct_arg(mod, f, argvals) and ctx.skip_known('struct-arg-partial-init'):
                continue
            if not f.get('va') and callgen.libffi_last_gpr_mixed_struct(mod, f['args'], f['ret']) and \
                    ctx.skip_known('libffi-mixed-struct-in-last-gpr'):
                continue
            proto = callgen.func_proto(fidx, f)
            res = [run_call(p, mod, call) for p in paths]
            kinds = set(_kind(t) for t in f['args'])
            nontriv = ((len(f['args']) >= 3 and len(kinds) >= 2) or f.get('va')
                       or 'struct' in kinds or f['ret'][0] == 's')
            cls = ['ret:' + _kind(f['ret']), 'outcome:' + (res[0]['outcome'][1] if res[0]['outcome'][0] == 'exc' else 'ok'),
                   label]
            for t, v in zip(f['args'], argvals):
                cls.append('arg:%s/%s' % (_kind(t), v[0]))
            if f.get('va'):
                cls.append('variadic')
                for v in argvals[len(f['args']) + 1:]:
                    cls.append('vararg:' + v[0])
            if res[0]['changed']:
                cls.append('memory-written')
            if res[0]['errno'] != e0:
                cls.append('errno-set')
            if any(t[0] == 'p' and t[2] * (callgen.sizeof_scalar(t[1]) if callgen.is_scalar(t[1]) else 8) > 512
                   and v[0] in ('list', 'tuple', 'str') for t, v in zip(f['args'], argvals)):
                cls.append('ptr-arg-temp>512B')
            ctx.note([proto, [v[0] for v in argvals], label], nontriv, cls)
            for p, r in zip(paths[1:], res[1:]):
                for what in ('outcome', 'mem', 'errno'):
                    if r[what] != res[0][what]:
                        ctx.fail('%s differs between call paths api and %s for %s' % (what, p[0], proto),
                                 proto=proto, args=argvals, errno_before=e0,
                                 results=dict((q[0], dict((k, x[k]) for k in ('outcome', 'errno', 'msg')))
                                              for q, x in zip(paths, res)),
                                 mem=dict((q[0], x['mem']) for q, x in zip(paths, res)) if what == 'mem' else None,
                                 structs=[callgen.struct_decl(k, fs) for k, fs in enumerate(mod['structs'])],
                                 body=callgen.func_body(fidx, f, len(mod['structs'])))
