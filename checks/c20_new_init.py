"""C20 -- ffi.new zero-fills and initialises exactly like assignment.

Case: one G-AGG unit (vlib/agg.py, no gcc) plus 2-5 initialisations, each
(target type, mode 'ptr' | 'arr' | 'arr[]', initialiser tree derived from the type
tree: lists/tuples partial/exact/too long, dicts subset/unknown key, bytes/str for
character arrays, cdata of the same struct/array type, items or a length for a
trailing flexible array, None, and ill-typed/out-of-range leaves).

Three results are compared:
 A  ffi.new(T, init)
 B  p = ffi.new(T); p[0] = init         (arrays: wrapper struct w {X f[n];}; w.f = init;
                                         flexible struct: p = ffi.new(T, {arr: n}) first)
 C  reference model: zeroed raw memory (char[]) viewed through a cast pointer, written
    leaf by leaf (one scalar setattr/setitem per initialised leaf) following what the
    statement says initialisers mean: sequences fill leading elements / fields in
    declaration order (anonymous members promoted), dicts set the named fields, union
    sequences set the first member.
A must raise iff the model rejects the initialiser; A and B raise the same exception type
or leave identical bytes; bytes(A) == bytes(C) (so everything init does not write is
zero); ffi.new(T) without init is all zero even when the allocator hands back dirty
memory (the heap is dirtied through libc before each allocation); for a flexible struct
ffi.sizeof(p[0]) == len(ffi.buffer(p)) >= offsetof(arr) + n*itemsize.
"""
import ctypes, os
from hypothesis import strategies as st
from vlib.core import HarnessError
from vlib import agg

ID = 'C20'
LEVEL = 'exploration'
RULE = ('Hypothesis-generated G-AGG units (<=3 aggregates, <=5 members per level, depth <=3, bitfields, '
        'packing, flexible arrays) x initialiser trees derived from the type tree (list/tuple partial, '
        'exact, too long; dict subset / unknown key; bytes/str; same-type cdata; flexible array items or '
        'length; None; bad leaves) x mode (X*, X[n], X[]).  Oracle = metamorphic (ffi.new vs assignment) + '
        'leaf-wise reference model on zeroed raw memory.  An evaluation is one (type, mode, initialiser); '
        'non-trivial = initialiser nests >=2 levels, or contains a dict, or feeds a flexible array; '
        'distinct by (canonical type text, mode, initialiser shape = tree with leaf values erased).')
TECHNIQUE = 'property-based metamorphic + model-based testing (in-process)'
LEVEL_TEXT = ('Random search over aggregate types and initialiser shapes; two independent references '
              '(item assignment through cffi, and a leaf-by-leaf model on raw zeroed memory).')
LEVEL_NOTE = ('Trusted: scalar setattr/setitem of cffi on a cast pointer (C02/C03/C05 cover those), '
              'ffi.cast, ffi.buffer; heap dirtying relies on glibc reusing freed chunks of the same size.')
ASSUMPTIONS = ['scalar field/element stores through a cast pointer are correct (covered by C02-C05)',
               'glibc malloc reuses just-freed chunks of the same size class (makes missing zero-fill visible)',
               'a union that starts with an unnamed bitfield still has a "first member" (its first named one), as in C']
BUDGET = {'quick': 3200, 'thorough': 96000}
TIME = {'quick': 20, 'thorough': 780}
MIN_PER_SHARD = 50
CRASHY = True      # under-allocation of a flexible struct would corrupt the heap of the worker

LEAF_KINDS = ('int', 'float', 'cplx', 'chr', 'null', 'addr')
BYTE_ELEMS = ('char', 'signed char', 'unsigned char', 'int8_t', 'uint8_t', '_Bool', 'bool',
              'int_least8_t', 'uint_least8_t', 'int_fast8_t', 'uint_fast8_t')
WIDE_ELEMS = ('wchar_t', 'char16_t', 'char32_t')


# ---------------------------------------------------------------------------
# strategy
# ---------------------------------------------------------------------------

def strategy(ctx):
    units = agg.units(max_aggs=3, max_members=5, max_depth=3)

    @st.composite
    def case(draw):
        unit = draw(units)

        def body_of(t):
            return unit[t[1]] if t[0] == 'agg' else t[1]

        def leaf(t, clean):
            if t[0] != 'prim':
                return draw(st.sampled_from([['null'], ['addr', 4096], ['addr', draw(st.integers(1, 2 ** 47))]]))
            p = agg.strip_quals(t[1])
            bad = (not clean) and draw(st.integers(0, 24)) == 0
            if bad:
                return draw(st.sampled_from([['str', 'x'], ['list', []], ['float', 1.5], ['null'],
                                             ['int', 2 ** 64], ['int', -2 ** 63 - 1], ['bytes', '6162']]))
            if p in agg.INT_RANGES:
                bits, signed = agg.INT_RANGES[p]
                lo, hi = (-(1 << (bits - 1)), (1 << (bits - 1)) - 1) if signed else (0, (1 << bits) - 1)
                if not clean and draw(st.integers(0, 14)) == 0:
                    return ['int', draw(st.sampled_from([lo - 1, hi + 1]))]
                return ['int', draw(st.one_of(st.sampled_from([lo, hi, 1 if hi else 0]), st.integers(lo, hi)))]
            if p == 'char':
                return ['chr', draw(st.integers(0, 255))]
            if p in WIDE_ELEMS:
                top = 0xffff if p == 'char16_t' else 0x10ffff
                cp = draw(st.one_of(st.integers(1, 127), st.integers(0, top)))
                if 0xd800 <= cp <= 0xdfff:
                    cp = 0x20ac
                return ['chr', cp]
            if 'Complex' in p:
                return ['cplx', draw(st.integers(-1000, 1000)) / 8.0, draw(st.integers(-1000, 1000)) / 4.0]
            return ['float', draw(st.one_of(st.floats(allow_nan=False, allow_infinity=False),
                                            st.sampled_from([0.0, -0.0, 1.5, -2.25, 1e300, 3.0e-320])))]

        def bf_leaf(m, clean):
            bits, signed = agg.bf_info(m[2])
            w = m[3]
            if m[2] == '_Bool':
                lo, hi = 0, 1
            elif signed:
                lo, hi = -(1 << (w - 1)), (1 << (w - 1)) - 1
            else:
                lo, hi = 0, (1 << w) - 1
            if not clean and draw(st.integers(0, 14)) == 0:
                return ['int', draw(st.sampled_from([lo - 1, hi + 2]))]
            return ['int', draw(st.one_of(st.sampled_from([lo, hi]), st.integers(lo, hi)))]

        def strlike(elem, n, clean, flexible):
            """bytes/str initialiser for an array of n char-like elements (None if not char-like)"""
            if elem[0] != 'prim':
                return None
            p = agg.strip_quals(elem[1])
            top = n if clean or flexible else n + 1
            if p in BYTE_ELEMS:
                L = draw(st.integers(0, top))
                if p in ('_Bool', 'bool'):
                    data = [draw(st.integers(0, 1)) for _ in range(L)]
                    if L and not clean and draw(st.integers(0, 5)) == 0:
                        data[draw(st.integers(0, L - 1))] = 2
                else:
                    data = [draw(st.integers(0, 255)) for _ in range(L)]
                return ['bytes', bytes(data).hex()]
            if p in WIDE_ELEMS:
                L = draw(st.integers(0, top))
                # (for char16_t an astral character takes two units: the string may then exactly fill, or
                # overflow, an array that its number of characters would fit)
                txt = ''.join(chr(draw(st.sampled_from([0x41, 0x7a, 0xe9, 0x20ac, 0x1, 0xffff, 0x1f600,
                                                        0x10000, 0x41, 0x10ffff])))
                              for _ in range(L))
                while (clean or flexible) and len(_units(txt, p)) > top:
                    txt = txt[:-1]
                return ['str', txt]
            return None

        def g_init(t, depth, clean, allow_cdata=True):
            k = t[0]
            if k in ('agg', 'inl'):
                body = body_of(t)
                ms = agg.ctor_members(body)
                names = sorted(agg.named_members(body))
                c = draw(st.integers(0, 9))
                if c == 0 and allow_cdata and depth < 3 and not agg.has_flex(body):
                    return ['cdata', g_init(t, depth + 1, True, False)]
                want_flex = agg.has_flex(body) and draw(st.integers(0, 2)) != 1
                if c <= 4:
                    L = len(ms) if want_flex else draw(st.integers(0, len(ms)))
                    items = [member_init(ms[i], depth + 1, clean) for i in range(L)]
                    if L == len(ms) and not clean and draw(st.integers(0, 7)) == 0:
                        items.append(['int', 0])
                    return [draw(st.sampled_from(['list', 'tuple'])), items]
                if c <= 8:
                    chosen = draw(st.lists(st.sampled_from(names), unique=True, max_size=len(names)))
                    if want_flex:
                        fname = [m[1] for m in body['members'] if m[0] == 'flex'][0]
                        if fname not in chosen:
                            chosen.insert(draw(st.integers(0, len(chosen))), fname)
                    nm = agg.named_members(body)
                    pairs = [[n, member_init(nm[n], depth + 1, clean)] for n in chosen]
                    if not clean and draw(st.integers(0, 11)) == 0:
                        pairs.insert(draw(st.integers(0, len(pairs))), ['zz', ['int', 0]])
                    return ['dict', pairs]
                if clean:
                    return ['list', []]
                return draw(st.sampled_from([['int', 0], ['str', 'x'], ['null']]))
            if k == 'arr':
                n, elem = t[1], t[2]
                c = draw(st.integers(0, 9))
                if c == 0 and allow_cdata and depth < 3:
                    return ['cdata', g_init(t, depth + 1, True, False)]
                if c <= 3:
                    s = strlike(elem, n, clean, False)
                    if s is not None:
                        return s
                if c == 9 and not clean:
                    return draw(st.sampled_from([['int', 0], ['dict', []], ['null']]))
                L = draw(st.integers(0, n if clean else n + (1 if draw(st.integers(0, 5)) == 0 else 0)))
                return [draw(st.sampled_from(['list', 'tuple'])),
                        [g_init(elem, depth + 1, clean) for _ in range(L)]]
            if k == 'flexarr':
                elem = t[1]
                c = draw(st.integers(0, 5))
                if c == 0:
                    return ['len', draw(st.integers(0, 5))]
                if c <= 2:
                    s = strlike(elem, 4, clean, True)
                    if s is not None:
                        return s
                L = draw(st.integers(0, 4))
                return [draw(st.sampled_from(['list', 'tuple'])),
                        [g_init(elem, depth + 1, clean) for _ in range(L)]]
            return leaf(t, clean)

        def member_init(m, depth, clean):
            if m[0] == 'bf':
                return bf_leaf(m, clean)
            if m[0] == 'flex':
                return g_init(['flexarr', m[2]], depth, clean)
            return g_init(m[2], depth, clean)

        inits = []
        for _ in range(draw(st.integers(2, 5))):
            if draw(st.integers(0, 7)) == 0:
                tt = ['prim', draw(st.sampled_from(['int', 'char', 'unsigned char', 'short', 'double', '_Bool',
                                                    'wchar_t', 'char16_t', 'long double', 'uint64_t',
                                                    'float _Complex']))]
            elif draw(st.integers(0, 6)) == 0:
                # a row type: 'P[][N]' / 'P[k][N]' / 'P(*)[N]' with (possibly short) rows
                tt = ['arr', draw(st.integers(2, 4)),
                      ['prim', draw(st.sampled_from(['int', 'char', 'short', 'double', 'unsigned char', 'wchar_t']))]]
            else:
                tt = ['agg', draw(st.integers(0, len(unit) - 1))]
            flexible = tt[0] == 'agg' and agg.has_flex(unit[tt[1]])
            mode = draw(st.sampled_from(['ptr', 'ptr', 'ptr', 'arr', 'arr[]']))
            if flexible:
                mode = 'ptr'
            if mode == 'ptr':
                if draw(st.integers(0, 15)) == 7:
                    init = ['none']
                else:
                    init = g_init(tt, 0, False, allow_cdata=not flexible)
                inits.append({'target': tt, 'mode': 'ptr', 'n': 0, 'init': init})
            elif mode == 'arr':
                n = draw(st.integers(1, 3))
                inits.append({'target': tt, 'mode': 'arr', 'n': n, 'init': g_init(['arr', n, tt], 0, False)})
            else:
                c = draw(st.integers(0, 4))
                s = strlike(tt, 4, False, True) if c <= 1 else None
                if s is not None:
                    init = s
                elif c == 2:
                    init = ['len', draw(st.integers(0, 3))]
                else:
                    init = [draw(st.sampled_from(['list', 'tuple'])),
                            [g_init(tt, 1, False) for _ in range(draw(st.integers(0, 3)))]]
                inits.append({'target': tt, 'mode': 'arr[]', 'n': 0, 'init': init})
        return {'unit': unit, 'inits': inits}
    return case()


# ---------------------------------------------------------------------------
# python values for cffi, from the initialiser tree
# ---------------------------------------------------------------------------

def _units(s, elem_name):
    """the array items a str initialiser occupies: UTF-16 units for char16_t, code points otherwise"""
    if elem_name == 'char16_t':
        b = s.encode('utf-16-le', 'surrogatepass')
        return [chr(int.from_bytes(b[i:i + 2], 'little')) for i in range(0, len(b), 2)]
    return list(s)


class ModelReject(Exception):
    """the reference model says this initialiser is not valid for the type"""


class LeafError(Exception):
    def __init__(self, exc):
        Exception.__init__(self, repr(exc))
        self.exc = exc


def _is_char1(t):
    return t is not None and t[0] == 'prim' and agg.strip_quals(t[1]) == 'char'


class Env(object):
    def __init__(self, ffi, unit):
        self.ffi = ffi
        self.unit = unit
        self.keep = []
        self.masks = []

    def body_of(self, t):
        return self.unit[t[1]] if t[0] == 'agg' else t[1]

    def member_type(self, m):
        if m[0] == 'bf':
            return ['prim', m[2]]
        if m[0] == 'flex':
            return ['flexarr', m[2]]
        return m[2]

    # -- value for A and B: what the user would write
    def pyval(self, t, ct, init):
        k = init[0]
        if k == 'int' or k == 'len':
            return init[1]
        if k == 'float':
            return init[1]
        if k == 'cplx':
            return complex(init[1], init[2])
        if k == 'chr':
            return bytes([init[1]]) if _is_char1(t) else chr(init[1])
        if k == 'str':
            return init[1]
        if k == 'bytes':
            return bytes.fromhex(init[1])
        if k == 'null':
            return self.ffi.NULL
        if k == 'none':
            return None
        if k == 'addr':
            if ct is None or ct.kind not in ('pointer', 'function'):
                return self.ffi.cast('void *', init[1])
            return self.ffi.cast(ct, init[1])
        if k in ('list', 'tuple'):
            items = init[1]
            out = []
            if t is not None and t[0] in ('agg', 'inl'):
                ms = agg.ctor_members(self.body_of(t))
                flds = dict(ct.fields) if ct is not None and ct.kind in ('struct', 'union') else {}
                for i, it in enumerate(items):
                    if i < len(ms):
                        f = flds.get(ms[i][1])
                        out.append(self.pyval(self.member_type(ms[i]), f.type if f is not None else None, it))
                    else:
                        out.append(self.pyval(None, None, it))
            elif t is not None and t[0] in ('arr', 'flexarr'):
                elem = t[2] if t[0] == 'arr' else t[1]
                ict = ct.item if ct is not None and ct.kind == 'array' else None
                out = [self.pyval(elem, ict, it) for it in items]
            else:
                out = [self.pyval(None, None, it) for it in items]
            return out if k == 'list' else tuple(out)
        if k == 'dict':
            out = {}
            nm = agg.named_members(self.body_of(t)) if t is not None and t[0] in ('agg', 'inl') else {}
            flds = dict(ct.fields) if ct is not None and ct.kind in ('struct', 'union') else {}
            for name, it in init[1]:
                if name in nm:
                    f = flds.get(name)
                    out[name] = self.pyval(self.member_type(nm[name]), f.type if f is not None else None, it)
                else:
                    out[name] = self.pyval(None, None, it)
            return out
        if k == 'cdata':
            import _cffi_backend
            v = self.pyval(t, ct, init[1])
            if ct.kind == 'array':
                c = self.ffi.new(ct, v)
                self.keep.append(c)
                return c
            c = self.ffi.new(_cffi_backend.new_pointer_type(ct), v)
            self.keep.append(c)
            return c[0]
        raise HarnessError('bad init node %r' % (init,))

    # -- reference model: leaf-wise stores
    def _get(self, parent, key):
        return parent[key] if isinstance(key, int) else getattr(parent, key)

    def _leaf_store(self, parent, key, v):
        try:
            if isinstance(key, int):
                parent[key] = v
            else:
                setattr(parent, key, v)
        except Exception as e:
            raise LeafError(e)

    def _ctype_at(self, parent, key):
        pt = self.ffi.typeof(parent)
        if isinstance(key, int):
            return pt.item
        if pt.kind == 'pointer':
            pt = pt.item
        return dict(pt.fields)[key].type

    def _zero(self, parent, key):
        ct = self._ctype_at(parent, key)
        size = self.ffi.sizeof(ct)
        if isinstance(key, int):
            addr = self.ffi.cast('char *', parent + key)
        else:
            addr = self.ffi.cast('char *', self.ffi.addressof(parent, key))
        self.ffi.buffer(addr, size)[:] = b'\0' * size

    def store(self, parent, key, t, init):
        k = init[0]
        if t[0] in ('agg', 'inl'):
            body = self.body_of(t)
            if k == 'cdata':
                self._zero(parent, key)
                return self.store(parent, key, t, init[1])
            if k in ('list', 'tuple'):
                ms = agg.ctor_members(body)
                if len(init[1]) > len(ms):
                    raise ModelReject('too many initialisers for the struct/union')
                sub = self._get(parent, key)
                for m, it in zip(ms, init[1]):
                    self.store(sub, m[1], self.member_type(m), it)
                return
            if k == 'dict':
                nm = agg.named_members(body)
                sub = self._get(parent, key)
                for name, it in init[1]:
                    if name not in nm:
                        raise ModelReject('unknown field %r' % name)
                    self.store(sub, name, self.member_type(nm[name]), it)
                return
            raise ModelReject('%s is no initialiser for a struct/union' % k)
        if t[0] in ('arr', 'flexarr'):
            n = t[1] if t[0] == 'arr' else None
            elem = t[2] if t[0] == 'arr' else t[1]
            if k == 'len' and n is None:
                self.flex_n = init[1]
                return
            if k == 'cdata' and n is not None:
                self._zero(parent, key)
                return self.store(parent, key, t, init[1])
            if k in ('list', 'tuple'):
                if n is not None and len(init[1]) > n:
                    raise ModelReject('too many initialisers for the array')
                if n is None:
                    self.flex_n = len(init[1])
                sub = self._get(parent, key)
                for i, it in enumerate(init[1]):
                    self.store(sub, i, elem, it)
                return
            p = agg.strip_quals(elem[1]) if elem[0] == 'prim' else None
            if k == 'bytes' and p in BYTE_ELEMS:
                data = bytes.fromhex(init[1])
                if n is not None and len(data) > n:
                    raise ModelReject('bytes too long')
                if n is None:
                    self.flex_n = len(data) + 1
                sub = self._get(parent, key)
                signed = p == 'signed char' or (p.startswith('int') and p != 'int')
                for i, b in enumerate(data):
                    if p == 'char':
                        v = bytes([b])
                    elif signed:
                        v = b - 256 if b > 127 else b
                    else:
                        v = b
                    self._leaf_store(sub, i, v)
                if n is None or len(data) < n:
                    self._leaf_store(sub, len(data), b'\0' if p == 'char' else 0)
                return
            if k == 'str' and p in WIDE_ELEMS:
                s = _units(init[1], p)
                if n is not None and len(s) > n:
                    raise ModelReject('str too long')
                if n is None:
                    self.flex_n = len(s) + 1
                sub = self._get(parent, key)
                for i, c in enumerate(s):
                    self._leaf_store(sub, i, c)
                if n is None or len(s) < n:
                    self._leaf_store(sub, len(s), '\0')
                return
            raise ModelReject('%s is no initialiser for this array' % k)
        # scalar leaf
        if k not in LEAF_KINDS and k not in ('str', 'bytes', 'list', 'tuple', 'dict'):
            raise ModelReject('%s is no initialiser for a scalar' % k)
        if k in ('list', 'tuple', 'dict'):
            raise ModelReject('%s is no initialiser for a scalar' % k)
        ct = self._ctype_at(parent, key)
        self._leaf_store(parent, key, self.pyval(t, ct, init))
        if t[0] == 'prim' and agg.strip_quals(t[1]) == 'long double':
            # bytes 10..15 of an x87 long double are padding: whatever a store leaves there is
            # unspecified (cffi copies them from a local variable), so they are not compared
            if isinstance(key, int):
                a = int(self.ffi.cast('uintptr_t', parent + key))
            else:
                a = int(self.ffi.cast('uintptr_t', self.ffi.addressof(parent, key)))
            self.masks.append(a - self.base + 10)

    flex_n = None
    base = 0

    def masked(self, b):
        b = bytearray(b)
        for off in self.masks:
            for i in range(off, min(off + 6, len(b))):
                b[i] = 0
        return bytes(b)


# ---------------------------------------------------------------------------
# the property
# ---------------------------------------------------------------------------

_libc = ctypes.CDLL(None)
_libc.malloc.restype = ctypes.c_void_p
_libc.malloc.argtypes = [ctypes.c_size_t]
_libc.free.argtypes = [ctypes.c_void_p]
_libc.memset.argtypes = [ctypes.c_void_p, ctypes.c_int, ctypes.c_size_t]
_libc.memset.restype = ctypes.c_void_p


def _dirty_heap(size):
    """leave freed, 0xAA-filled chunks in the size classes an allocation of `size` data bytes
    (+ cdata header) can come from"""
    blocks = []
    for extra in (16, 24, 32, 40, 48, 64):
        for _ in range(2):
            b = _libc.malloc(size + extra)
            if b:
                _libc.memset(b, 0xAA, size + extra)
                blocks.append(b)
    for b in blocks:
        _libc.free(b)


def _shape(init):
    k = init[0]
    if k in ('list', 'tuple'):
        return [k, [_shape(x) for x in init[1]]]
    if k == 'dict':
        return [k, [[n, _shape(x)] for n, x in init[1]]]
    if k == 'cdata':
        return [k, _shape(init[1])]
    if k in ('bytes', 'str'):
        return [k, len(init[1])]
    if k == 'len':
        return [k, init[1]]
    return k


def _depth(init):
    k = init[0]
    if k in ('list', 'tuple'):
        return 1 + max([_depth(x) for x in init[1]] or [0])
    if k == 'dict':
        return 1 + max([_depth(x) for _, x in init[1]] or [0])
    if k == 'cdata':
        return _depth(init[1])
    if k in ('bytes', 'str'):
        return 1
    return 0


def _has(init, kind):
    k = init[0]
    if k == kind:
        return True
    if k in ('list', 'tuple'):
        return any(_has(x, kind) for x in init[1])
    if k == 'dict':
        return any(_has(x, kind) for _, x in init[1])
    if k == 'cdata':
        return _has(init[1], kind)
    return False


def _flex_entry(unit, target, init):
    """the initialiser given to the flexible array member, or None"""
    body = unit[target[1]]
    fm = [m for m in body['members'] if m[0] == 'flex'][0]
    if init[0] in ('list', 'tuple'):
        ms = agg.ctor_members(body)
        for m, it in zip(ms, init[1]):
            if m is fm:
                return it
    elif init[0] == 'dict':
        found = None
        for name, it in init[1]:
            if name == fm[1]:
                found = it
        return found
    return None


def prop(case, ctx):
    unit = case['unit']
    ffi = agg.make_ffi(unit)
    for w, spec in enumerate(case['inits']):
        t = spec['target']
        known = t[0] == 'agg' and any(agg.union_leading_unnamed_bitfield(unit[j])
                                      for j in agg.embedded_closure(unit, t[1]))
        _one(ffi, unit, w, spec, ctx, known)


def _one(ffi, unit, w, spec, ctx, group_has_known):
    target, mode, init = spec['target'], spec['mode'], spec['init']
    env = Env(ffi, unit)
    if target[0] == 'agg':
        X = agg.type_name(unit, target[1])
        canon = agg.canonical(unit, target[1])
        flexible = agg.has_flex(unit[target[1]])
    elif target[0] == 'arr':
        # row type, used through a typedef so that 'X[]' is an array of arrays
        X = 'c20row_%s_%d' % (agg.strip_quals(target[2][1]).replace(' ', '_'), target[1])
        try:
            ffi.typeof(X)
        except Exception:
            ffi.cdef('typedef %s %s[%d];' % (target[2][1], X, target[1]))
        canon = X
        flexible = False
    else:
        X = target[1]
        canon = X
        flexible = False
    seq_like = _nonempty_seq(init)
    if group_has_known and seq_like and ctx.skip_known('union-leading-unnamed-bitfield'):
        return
    # ---- the type strings ----
    if mode == 'ptr':
        T = X + ' *'
        tt = target
        n_arr = None
    else:
        if mode == 'arr':
            n_arr = spec['n']
        else:
            k = init[0]
            if k in ('list', 'tuple'):
                n_arr = len(init[1])
            elif k == 'len':
                n_arr = init[1]
            elif k == 'bytes':
                n_arr = len(bytes.fromhex(init[1])) + 1
            elif k == 'str':
                n_arr = len(_units(init[1], agg.strip_quals(target[1]) if target[0] == 'prim' else '')) + 1
            else:
                raise HarnessError('bad arr[] init %r' % (init,))
        T = '%s[%s]' % (X, n_arr if mode == 'arr' else '')
        tt = ['arr', n_arr, target]
    shape = _shape(init)
    nontrivial = _depth(init) >= 2 or _has(init, 'dict') or (flexible and _flex_entry(unit, target, init) is not None)
    cls = ['mode=' + mode, 'top=' + init[0], 'depth=%d' % min(_depth(init), 4)]
    for kind in ('dict', 'cdata', 'bytes', 'str', 'tuple', 'len'):
        if _has(init, kind):
            cls.append('has-' + kind)
    if flexible:
        cls.append('flexible-struct')
        if _flex_entry(unit, target, init) is not None:
            cls.append('flexible-array-initialised')
    if target[0] == 'agg':
        cls.append('target-' + unit[target[1]]['kind'])
        if agg.has_bitfield(unit[target[1]]):
            cls.append('target-has-bitfield')
    shown = '\n'.join('%s   // %r' % (agg.render_agg(unit, i), agg.cdef_kwargs(a)) for i, a in enumerate(unit))

    # ---- no initialiser: all zero, also on dirty heap ----
    base_size = ffi.sizeof(X) if mode == 'ptr' else ffi.sizeof(X) * n_arr
    _dirty_heap(base_size)
    z = ffi.new(T) if mode != 'arr[]' else ffi.new(T, n_arr)
    zb = bytes(ffi.buffer(z))
    if len(zb) != base_size:
        ctx.fail('ffi.new(%r) without initialiser: buffer has %d bytes, expected %d' % (T, len(zb), base_size), unit=shown)
    if zb.count(0) != len(zb):
        ctx.fail('ffi.new(%r) without initialiser is not zero-filled: %s' % (T, zb.hex()), unit=shown)
    del z

    # ---- A: ffi.new(T, init) ----
    ct_X = ffi.typeof(X)
    excA = resA = None
    try:
        if mode == 'ptr':
            v = env.pyval(target, ct_X, init)
        elif mode == 'arr':
            v = env.pyval(tt, ffi.typeof(T), init)
        else:
            v = env.pyval(['flexarr', target], ffi.typeof(T), init)
    except Exception as e:
        # building a same-type cdata sub-initialiser (always a clean one) failed
        ctx.fail('valid nested initialiser rejected while building a cdata value: %s: %s' % (type(e).__name__, e),
                 unit=shown, T=T, init=init)
    _dirty_heap(base_size + 16)
    try:
        pA = ffi.new(T, v)
        resA = bytes(ffi.buffer(pA))
    except Exception as e:
        excA = e

    # ---- C: the model ----
    excC = None
    env.flex_n = None
    size_needed = base_size
    if flexible:
        fe = _flex_entry(unit, target, init)
        if fe is not None:
            fm = [m for m in unit[target[1]]['members'] if m[0] == 'flex'][0]
            fct = dict(ct_X.fields)[fm[1]]
            if fe[0] in ('list', 'tuple'):
                cnt = len(fe[1])
            elif fe[0] == 'len':
                cnt = fe[1]
            elif fe[0] == 'bytes':
                cnt = len(bytes.fromhex(fe[1])) + 1
            elif fe[0] == 'str':
                cnt = len(_units(fe[1], fct.type.item.cname)) + 1
            else:
                cnt = 0
            size_needed = max(base_size, fct.offset + cnt * ffi.sizeof(fct.type.item))
    raw_size = max(size_needed, len(resA) if resA is not None else 0, 1) + 64
    raw = ffi.new('char[]', raw_size)
    env.base = int(ffi.cast('uintptr_t', raw))
    if init[0] != 'none':
        try:
            if mode == 'ptr':
                q = ffi.cast(T, raw)
                env.store(q, 0, target, init)
            else:
                if n_arr > 0:
                    wname = 'c20w%d' % w
                    ffi.cdef('struct %s { %s; };' % (wname, agg.declarator(target, 'f[%d]' % n_arr, unit, 0, '', False)),
                             packed=True)
                    q = ffi.cast('struct %s *' % wname, raw)
                    env.store(q, 'f', tt, init if mode == 'arr' or init[0] != 'len' else ['list', []])
        except ModelReject as e:
            excC = e
        except LeafError as e:
            excC = e
    resC = env.masked(bytes(ffi.buffer(raw)))
    if resA is not None:
        resA = env.masked(resA)

    ctx.note([canon, mode, n_arr, shape], nontrivial,
             cls + ['outcome=' + ('ok' if excA is None else type(excA).__name__)])

    # ---- accept/reject agreement with the model ----
    if excC is not None and excA is None:
        ctx.fail('ffi.new(%r, init) accepted an initialiser the model rejects (%s)' % (T, excC),
                 unit=shown, init=init, bytes=resA.hex())
    if excC is None and excA is not None:
        ctx.fail('ffi.new(%r, init) raised %s: %s for an initialiser that is valid leaf by leaf'
                 % (T, type(excA).__name__, excA), unit=shown, init=init)

    # ---- B: allocate, then assign ----
    excB = resB = None
    doB = True
    if mode == 'ptr':
        try:
            if flexible and _flex_entry(unit, target, init) is not None:
                pB = ffi.new(T, {fm[1]: cnt})
            else:
                pB = ffi.new(T)
        except Exception as e:
            ctx.fail('ffi.new(%r, {%r: %d}) (flexible array given as a length) raised %s: %s'
                     % (T, fm[1], cnt, type(e).__name__, e), unit=shown)
        if init[0] == 'none':
            doB = False
        else:
            try:
                pB[0] = v
            except Exception as e:
                excB = e
        resB = env.masked(bytes(ffi.buffer(pB)))
    else:
        if n_arr == 0 or (mode == 'arr[]' and init[0] == 'len'):
            doB = False
        else:
            pB = ffi.new('struct c20w%d *' % w)
            try:
                pB.f = v
            except Exception as e:
                excB = e
            resB = env.masked(bytes(ffi.buffer(pB)))
    if doB:
        # (a flexible struct is sized by a separate pass over the initialiser in ffi.new, which may meet
        # a different error first: only raise / not raise is compared there)
        if (excA is None) != (excB is None) or (excA is not None and not flexible
                                                and type(excA) is not type(excB)):
            ctx.fail('ffi.new(%r, init) %s but allocation + assignment %s'
                     % (T, 'raised %r' % excA if excA is not None else 'succeeded',
                        'raised %r' % excB if excB is not None else 'succeeded'), unit=shown, init=init)
    if excA is not None:
        return
    # ---- sizes ----
    if flexible:
        try:
            sz = ffi.sizeof(pA[0])
        except Exception as e:
            ctx.fail('ffi.sizeof(p[0]) of a flexible struct raised %r' % e, unit=shown, init=init)
        if sz != len(resA):
            ctx.fail('ffi.sizeof(p[0]) = %d but the allocation (ffi.buffer(p)) has %d bytes' % (sz, len(resA)),
                     unit=shown, init=init)
        if len(resA) < size_needed:
            ctx.fail('flexible struct allocated with %d bytes; offsetof(arr) + n*itemsize = %d'
                     % (len(resA), size_needed), unit=shown, init=init)
    elif len(resA) != base_size:
        ctx.fail('ffi.new(%r, init): buffer has %d bytes, expected %d' % (T, len(resA), base_size),
                 unit=shown, init=init)
    # ---- bytes ----
    if resC[len(resA):].count(0) != len(resC) - len(resA):
        ctx.fail('the model wrote beyond what ffi.new allocated (%d bytes): initialiser does not fit' % len(resA),
                 unit=shown, init=init, model=resC.hex())
    if resA != resC[:len(resA)]:
        ctx.fail('bytes after ffi.new(%r, init) differ from zero-fill + leaf-wise stores' % T,
                 unit=shown, init=init, new=resA.hex(), model=resC[:len(resA)].hex())
    if doB and resA != resB:
        ctx.fail('bytes after ffi.new(%r, init) differ from allocation + assignment' % T,
                 unit=shown, init=init, new=resA.hex(), assigned=resB.hex())


def _nonempty_seq(init):
    k = init[0]
    if k in ('list', 'tuple'):
        return len(init[1]) > 0
    if k == 'dict':
        return any(_nonempty_seq(x) for _, x in init[1])
    if k == 'cdata':
        return _nonempty_seq(init[1])
    return False


# ---------------------------------------------------------------- nested flexible structs, all FFI kinds
#
# pre(): enumeration of a small finite family that the G-AGG generator does not produce (a struct
# whose *last member is a struct ending in a flexible array*, nested 1-3 deep -- a GNU C extension
# that cffi supports explicitly), realised as an in-line FFI, an out-of-line ABI module and a compiled
# API module (where structs are realised lazily), in both realisation orders (outermost type used
# first while the inner ones were never touched / innermost first).  Every variant has its own type
# names, so the order is really the one stated.  One gcc build per run.

_NF_ITEMS = [('signed char', 1), ('short', 2), ('int', 4), ('double', 8)]
_NF_PREFIX = [('signed char', 1), ('long', 8)]


def _nf_variants():
    out = []
    k = 0
    for (it, isz) in _NF_ITEMS:
        for (pt, psz) in _NF_PREFIX:
            for depth in (1, 2, 3):
                for order in ('outer-first', 'inner-first'):
                    out.append({'k': k, 'item': it, 'isz': isz, 'prefix': pt, 'depth': depth, 'order': order})
                    k += 1
    return out


def _nf_decls(v):
    """C/cdef text of one variant: struct nf<k>_0 { prefix p; item arr[]; }; struct nf<k>_1 { prefix q;
    struct nf<k>_0 in; }; ..."""
    k = v['k']
    lines = ['struct nf%d_0 { %s p0; %s arr[]; };' % (k, v['prefix'], v['item'])]
    for d in range(1, v['depth']):
        lines.append('struct nf%d_%d { %s p%d; struct nf%d_%d in; };' % (k, d, v['prefix'], d, k, d - 1))
    return '\n'.join(lines)


def _nf_init(v, form, n):
    """nested initialiser for the outermost struct giving the flexible array n items (or a length)"""
    arr = list(range(1, n + 1)) if form != 'len' else n
    if form == 'dict':
        cur = {'arr': arr}
        for d in range(1, v['depth']):
            cur = {'in': cur}
        return cur
    if form == 'tuple':                 # tuples at every level, the array items too
        cur = (0, tuple(arr))
        for d in range(1, v['depth']):
            cur = (0, cur)
        return cur
    if form == 'mixed':                 # list at the top, tuples below it
        cur = (0, arr)
        for d in range(1, v['depth']):
            cur = (0, cur)
        return list(cur)
    cur = [0, arr]
    for d in range(1, v['depth']):
        cur = [0, cur]
    return cur


def _exact_fill_sweep(ctx):
    """strings that fill a character array field exactly (no room for a terminator) or leave one item, next
    to other fields, given as dict initialisers in every key order and as field assignments in every order:
    each leaf must end up where the layout says and nothing else may be written"""
    import cffi, itertools, struct as _st
    ffi = cffi.FFI()
    kinds = [('char', 1), ('wchar_t', 4), ('char16_t', 2), ('char32_t', 4)]
    ffi.cdef('\n'.join('struct xf_%s_%d { %s a[%d]; uint16_t b; %s c[%d]; uint16_t d; };' % (T, N, T, N, T, N)
                       for T, _ in kinds for N in (1, 2, 3, 4)))
    pool = ['x', 'xy', 'xyz', 'wxyz', '\U0001f600', 'x\U0001f600', '\U0001f600y', '\U0001f600\U00010000',
            '\u20ac', '\u20acx\xe9', 'a\U0010ffffb', '']
    n_eval = 0
    for T, usz in kinds:
        for N in (1, 2, 3, 4):
            S = 'struct xf_%s_%d' % (T, N)
            size = ffi.sizeof(S)
            offs = dict((f, ffi.offsetof(S, f)) for f in 'abcd')

            def units(txt):
                if T == 'char':
                    return [ord(ch) for ch in txt if ord(ch) < 128]
                return [ord(u) for u in _units(txt, T)]
            cands = [t for t in pool if T != 'char' or all(ord(ch) < 128 for ch in t)]
            fits = [t for t in cands if len(units(t)) in (N, N - 1)]
            for sa in fits:
                sc = fits[-1]
                values = {'a': sa.encode('ascii') if T == 'char' else sa, 'b': 0xBEEF,
                          'c': sc.encode('ascii') if T == 'char' else sc, 'd': 0x1234}
                want = bytearray(size)
                for f, txt in (('a', sa), ('c', sc)):
                    for i, u in enumerate(units(txt)):
                        want[offs[f] + i * usz:offs[f] + (i + 1) * usz] = u.to_bytes(usz, 'little')
                want[offs['b']:offs['b'] + 2] = _st.pack('<H', 0xBEEF)
                want[offs['d']:offs['d'] + 2] = _st.pack('<H', 0x1234)
                for order in itertools.permutations('abcd'):
                    case = {'exact_fill': [T, N, sa, sc, ''.join(order)]}
                    if hasattr(ctx, 'journal'):
                        ctx.journal(case)
                    init = dict((f, values[f]) for f in order)
                    p = ffi.new(S + ' *', init)
                    q = ffi.new(S + ' *')
                    for f in order:
                        setattr(q, f, values[f])
                    for how, obj in (('ffi.new(dict)', p), ('field assignments', q)):
                        got = bytes(ffi.buffer(obj))
                        if got != bytes(want):
                            ctx.fail('%s with %s in the order %s: memory is %s, expected %s'
                                     % (S, how, ''.join(order), got.hex(), bytes(want).hex()), case=case,
                                     a=ascii(sa), c=ascii(sc))
                    n_eval += 1
                ctx.note(['exact-fill', T, N, sa], True, ['exact-fill-sweep', 'exact-fill:' + T])
    ctx.extra['exact_fill_sweep'] = n_eval


def pre(ctx):
    import cffi
    _exact_fill_sweep(ctx)
    variants = _nf_variants()
    text = '\n'.join(_nf_decls(v) for v in variants)
    ffis = {}
    f_in = cffi.FFI()
    f_in.cdef(text)
    ffis['inline'] = f_in
    f_o = cffi.FFI()
    f_o.cdef(text)
    f_o.set_source('_c20_nf_ool', None)
    path = os.path.join(ctx.tmp, '_c20_nf_ool.py')
    f_o.emit_python_code(path)
    ns = {}
    with open(path) as fp:
        exec(compile(fp.read(), path, 'exec'), ns)
    ffis['ool'] = ns['ffi']
    f_a = cffi.FFI()
    f_a.cdef(text)
    name = '_c20_nf_api_%d' % os.getpid()
    f_a.set_source(name, text)
    from vlib import cc
    ffis['api'] = cc.build_api_module(f_a, name, ctx.tmp).ffi
    forms = ['list', 'dict', 'len', 'tuple', 'mixed']
    n_eval = 0
    for mode in ('inline', 'ool', 'api'):
        ffi = ffis[mode]
        for v in variants:
            k, depth = v['k'], v['depth']
            outer = 'struct nf%d_%d' % (k, depth - 1)
            form = forms[(k + len(mode)) % 5]
            n = 3 + k % 4
            case = {'nested_flex': v, 'mode': mode, 'form': form, 'n': n}
            if hasattr(ctx, 'journal'):
                ctx.journal(case)
            if v['order'] == 'inner-first':
                for d in range(depth):
                    ffi.sizeof('struct nf%d_%d' % (k, d))
            try:
                p = ffi.new(outer + ' *', _nf_init(v, form, n))
            except Exception as e:
                ctx.fail('ffi.new(%r, nested initialiser) raised %s: %s [%s FFI, %s]' % (
                    outer, type(e).__name__, e, mode, v['order']), case=case)
            base = ffi.sizeof(outer)
            # offset of the array from the start of the outermost struct
            off, tname = 0, outer
            for d in range(depth - 1, 0, -1):
                off += ffi.offsetof('struct nf%d_%d' % (k, d), 'in')
            off += ffi.offsetof('struct nf%d_0' % k, 'arr')
            need = off + n * v['isz']
            got_size, got_buf = ffi.sizeof(p[0]), len(ffi.buffer(p))
            if got_size != got_buf or got_size < need or got_size < base:
                ctx.fail('nested flexible struct %s with %d items: sizeof(p[0]) = %d, len(buffer(p)) = %d, '
                         'needed >= %d (base size %d) [%s FFI, %s, %s initialiser]' % (
                             outer, n, got_size, got_buf, need, base, mode, v['order'], form), case=case)
            inner = p[0]
            for d in range(depth - 1):
                inner = getattr(inner, 'in')
            items = [inner.arr[i] for i in range(n)]
            want = [0] * n if form == 'len' else list(range(1, n + 1))
            if items != want:
                ctx.fail('nested flexible struct %s: items read back %r, expected %r [%s FFI, %s]' % (
                    outer, items, want, mode, v['order']), case=case)
            raw = bytes(ffi.buffer(p))
            if any(raw[:off]) or (form == 'len' and any(raw)):
                ctx.fail('nested flexible struct %s: memory outside the initialised items is not zero [%s FFI]'
                         % (outer, mode), case=case)
            n_eval += 1
            ctx.note(['nested-flex', mode, k, form], True,
                     ['nested-flex:' + mode, 'nested-flex:' + v['order'], 'nested-flex:depth=%d' % depth])
    ctx.extra['nested_flexible_struct_variants'] = n_eval
